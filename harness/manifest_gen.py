"""Regenerates MANIFEST.json from the table below (single source of truth)."""
import json
from pathlib import Path

VERIF = Path(__file__).resolve().parent.parent

CHECKS = {
    "C13": dict(
        category="model_checking",
        text="DataStore.tla (dictionary model + design-level action properties: isolation, append-never-overwrites, "
        "read-only-never-mutates) is model-checked exhaustively by TLC; every transition of the closed state graph "
        "(2-3 affix-related ids x 2 payloads x 3 modes, all histories) is replayed on real DataStoreDirectory and "
        "DataStoreSqlite objects and the observed store (live API and freshly re-opened) must equal a spec successor; "
        "recorded executions of random drivers and of the repository's data-store tests are validated by Trace_DataStore.tla. "
        "SqliteLock.tla models the sqlite store's lock over two processes (lazy connection, overwrite refused on a locked file, append re-locks, "
        "unlock/force, close keeps the lock, a refused object used again) and is replayed with simulated pids; describe/validate are derived views of the state. "
        "Four instantiations of the constants (affix ids, table-name-prefixed ids + empty payload, dotted ids, ONE id replayed exhaustively without a budget in both tiers, identifiers with glob characters); append over an identifier that only has a failure record is pinned per store kind (WriteKind); "
        "a second pass of the directory store looks through the recorded shared-md5-file finding so that histories through it are explored too.",
        design_ref="DESIGN.md section 2 / C13",
        note="Trusted: TLC, the projection in harness/check_C13.py (reads through the public API only), md5 via hashlib. "
        "Replay of the multi-identifier instantiations is budget-sampled (stratified by action, first levels complete) in both tiers; the one-identifier instantiation is exhaustive. Logs checked for presence and last content only; "
        "ReadOnlyDataStoreZipped only as a read-only view of a zipped directory store. Processes are simulated by patching os.getpid.",
        technique="TLA+ model (TLC exhaustive) + spec->code transition replay + code->spec trace validation",
    ),
    "C07": dict(
        category="model_checking",
        text="Recalc.tla transcribes Calculator.change (double buffer, one-deep undo, recycled-array spare juggling, "
        "out-of-bounds rollback) with cell values modelled as provenance and recycled arrays as heap identities; TLC proves "
        "Fresh/UndoSound/ReturnIsTop on the closed reachable set of three DAG shapes (all histories of all change vectors) and "
        "every transition is replayed on a real Calculator comparing both buffers, array identities, _switch, last_values, "
        "last_undo, spare.  ParamScope.tla models the scope partition / motif probs / alignment / updates_postponed (incl. "
        "exception exit, RefusedRule: a rule refused part-way through its scopes is a stuttering step, CalcNudge: an optimiser step below the abstraction's resolution, motif probabilities handed over in a numpy buffer the caller reuses) / optimiser round trips; its transitions are replayed on real likelihood functions and after each "
        "step lnL, nfp, per-edge values and exported rules are compared with a function newly built from the spec state, on three kinds of function "
        "(plain, two rate classes, two classes along a site-HMM).  Calculators of real optimiser runs (incl. site-HMM and two-locus functions) are "
        "validated against Recalc.tla by Trace_Recalc.tla with the DAG taken from the real calculator.",
        design_ref="DESIGN.md section 2 / C07",
        note="Trusted: TLC, harness projections. Provenance abstraction: numeric correctness of individual calc functions is "
        "not part of C07. One scoped parameter (kappa, HKY85) on a 3-edge tree in layer 2; layer-2 replay is budget-sampled "
        "(stratified by action) in the quick tier. MPI/parallel calculators and tracing_update not covered.",
        technique="TLA+ transcription of Calculator.change + scope model (TLC exhaustive) + spec->code transition replay",
    ),
    "C05": dict(
        category="model_checking",
        text="MarkovQ.tla states the published definition of the named substitution models (nucleotide JC69..GTR, GN; codon GY94/Y98 "
        "(word), MG94HKY/GTR (monomer), CNFHKY/GTR (conditional)) in exact rational arithmetic; TLC proves zero row sums, "
        "non-negative off-diagonals, unit expected rate, stationarity and detailed balance on every instance (prime-coded "
        "parameters) and every cell of Q is compared with the real likelihood function's rate matrix. MarkovP.tla gives the exact "
        "rational P(t) of the TN93 family; TLC proves row-stochasticity, P(0)=I, Chapman-Kolmogorov and detailed balance, and the real "
        "psubs are compared with it under every expm back-end and Exponentiator class. Instances also cover a second genetic code (state space and "
        "synonymous partition), dinucleotide and position-specific codon models, user-built predicate algebra, the admission rule of the "
        "time-reversible classes (Refuse action: mirrored directed terms must be refused) and a general model at a non-diagonalisable point, "
        "where every expm back-end is compared with exp(Qt) of the spec's exact Q. Rate classes are given by count, by names in a non-alphabetical "
        "declared order and beyond ten: multipliers average to one and each class USES the multiplier it reports; matrices the function returns may be edited by the caller without changing the function's own process.",
        design_ref="DESIGN.md section 2 / C05",
        note="Trusted: TLC, Fraction->float conversion, ln(q) for branch lengths. exp(Qt) of models without a rational closed form "
        "(GTR, GN, ssGN, codon, protein) is NOT decided by the spec: the obligations are evaluated relationally in floating point in "
        "the harness. Gamma rate classes: normalisation only. Discrete-time BH/DT not covered.",
        technique="TLA+ exact-rational model definitions (TLC invariants) + cell-by-cell conformance of real Q and P",
    ),
    "C02": dict(
        category="model_checking",
        text="Felsenstein.tla defines the site likelihood both by pruning and by the explicit sum over all assignments of states to all "
        "nodes, over exact rationals (TN93 family: closed-form P(t) from TN93.tla); TLC proves pruning = sum-product for every column, "
        "that the likelihoods of all canonical columns sum to one, and that rate classes are the bprob-weighted mixture. Each "
        "configuration (2-4 tips; star, rooted, root trifurcation; per-edge lengths and kappa scopes; ambiguity-coded columns over "
        "T,C,A,G,R,Y,N; equal and unequal rate classes) is instantiated as a real likelihood function and every per-column likelihood "
        "and lnL is compared with the exact value (rtol 1e-10). The spec also covers the site-HMM over classes (forward recursion = sum over patch "
        "paths, stochastic patch chain, switch 0/1 limits, total probability one; ordered alignments compared exactly) and several loci sharing a "
        "tree; for every MarkovQ instance (codon under two genetic codes, dinucleotide, user-built, GN) per-column likelihoods are compared with a "
        "pruning over exp(Qt) of the spec's exact Q; classes that differ in one rate term (ordered_param) obey the spec's mixture law "
        "Lik = sum_b w_b Lik_b with each class's process rebuilt from what the function reports (named and counted classes); unknown motif positions written - or ?, recode_gaps default or False; motif probabilities handed over in a reused numpy buffer.",
        design_ref="DESIGN.md section 2 / C02",
        note="Trusted: TLC, Fraction->float, ln for branch lengths and lnL. Exact oracle only for the Tamura-Nei family on <= 4 tips. "
        "For GTR/GN/codon/protein/dinucleotide models the independent number is not available: their Q is decided by C05, the pruning "
        "structure relationally by C11, and the sum-over-all-columns = 1 obligation is evaluated on the real code in float.",
        technique="TLA+ exact-rational sum-product (TLC: pruning = brute force) + per-column conformance of real likelihood functions",
    ),
    "C11": dict(
        category="model_checking",
        text="Invariance.tla proves exactly, on the Felsenstein model over the TN93 family, that re-rooting at any inner node "
        "(time-reversible models) and splitting an edge into two composing edges (time-homogeneous models) leave every site "
        "likelihood unchanged; column/sequence/child order and column repetition are invariances by construction of the model. "
        "The emitted root moves and edge splits are applied to the real functions of the exact configurations (lnL must equal the "
        "exact value before and after) and the full transformation list is applied relationally to real problems of every model "
        "class (nucleotide incl. non-reversible GN/ssGN, codon MG94HKY/GY94/CNFGTR, protein JTT92) with seeded alignments and parameters. "
        "Root moves also run on trees with per-edge parameter scopes (the spec's Reroot moves each edge's instance with the edge; the real "
        "annotated tree carries the parameters), the root is moved onto edges, splits include pieces of 1e-9/1e-12, and (tip, tip | outgroup) "
        "parameter scopes are defined root-free in the spec, proved invariant under Reroot and replayed on every rooting of real trees; rooted two-child "
        "trees are written with their root children in both orders and taken through unrooted / unrooted_deepcopy / root_at_midpoint / rooted_with_tip; numpy-typed branch lengths; motif probabilities taken from data that lack a base.",
        design_ref="DESIGN.md section 2 / C11",
        note="Trusted: TLC, cogent3's own tree re-rooting (rooted_at / rooted_with_tip, decided by C09) to produce the transformed "
        "problems. For models without an exact oracle the check is relational in floating point (rtol 1e-9): the spec dictates which "
        "relation must hold and under which model-class guard. 5-taxon seeded problems.",
        technique="TLA+ exact invariance theorems (TLC) + relational conformance on real likelihood functions",
    ),
    "C16": dict(
        category="model_checking",
        text="NestedInit.tla states cogent3's projection of parameters between nested models by matrix coordinates over the exact model "
        "definitions of MarkovQ.tla; TLC proves Q(rich, projected) = Q(nested) for every pair (JC69<K80, F81<HKY85<TN93<GTR<GN, "
        "HKY85<GN, MG94HKY<MG94GTR, CNFHKY<CNFGTR) with prime-coded values, and NestedScope.tla enumerates nesting by scope (all "
        "partitions of 3 edges x refinements). Each case is replayed with initialise_from_nested on real functions: projected values, "
        "per-edge rate matrices and lnL must equal the nested function's before any optimisation. Recorded optimiser runs (every "
        "calculator evaluation, in-bounds flag, start/final lnL; local, global, both; with and without evaluation limits) are "
        "validated by Trace_Optimiser.tla against NeverLoses / WithinBounds (evaluations the calculator refuses are RejectedT steps; a run that "
        "ends by raising is not a behaviour); GeneralStationary initialised from a fitted GTR under several evaluation limits; nested terms "
        "held constant are projected like estimates; a batch of rules refused before the initialisation is a stuttering step; edge names made of the same characters; an optimum sitting on a declared bound is reported within [lower, upper] exactly; hypothesis apps must give LR >= 0.",
        design_ref="DESIGN.md section 2 / C16",
        note="Trusted: TLC, harness wrappers around Calculator.testoptparvector and ParameterController.optimise (harness side, "
        "no source change). Whether the optimiser finds the optimum is not checked. Small 3-taxon problems.",
        technique="TLA+ nested-projection theorem (TLC exact) + spec->code replay; code->spec trace validation of optimiser runs",
    ),
    "C18": dict(
        category="model_checking",
        text="PairAlign.tla enumerates every alignment path (global; local = contiguous parts, M...M) of every sequence pair within "
        "the bounds together with the rows it denotes and the sufficient statistics of the pair-HMM score; TLC checks the path space is "
        "well formed (rows degap to the consumed parts, equal length, no all-gap column). For seeded scoring systems the harness scores "
        "every path and requires of global_pairwise/local_pairwise: returned rows are one of the spec's paths, reported score = that "
        "path's score, no path scores higher, and forced Hirschberg agrees with full DP. RefMerge.tla enumerates sets of pairwise gap "
        "layouts against a reference; real pairwise_to_multiple outputs are validated against RefMerge!Valid by TLC. AlignCalls.tla models "
        "histories of alignment calls on ONE score-table object that is edited in place between calls, with gap penalties incl. zero, through the "
        "functions and the smith_waterman / align_to_ref apps (model handed over explicitly, or as the documented default selected by moltype name or "
        "object; scores as int8 / float32 / float; reference named or left at its default): every call must be optimal for the model as it is at that time. Progressive "
        "outputs are validated structurally.",
        design_ref="DESIGN.md section 2 / C18",
        note="Trusted: TLC; path scores (ln, dot product, max) are float work in the harness over TLC's complete path set; transition "
        "matrix and start probabilities come from cogent3's own classic_gap_scores (the aligner's own model). Sequences of length <= 3 "
        "over 2-3 letters. Progressive alignment optimality not defined/checked; codon/protein aligners structural only.",
        technique="TLA+ path-space enumeration (TLC) + conformance of real aligners; TLC validation of merged alignments against a relation",
    ),
    "C01": dict(
        category="model_checking",
        text="SeqView.tla is a two-layer spec: the abstract view (sequence of displayed parent indices + complement flag, Python slice "
        "semantics from PySlice.tla) and the implementation-shaped SeqView record (start, stop, step, offset, seq_len) transcribed from "
        "the code; TLC proves the refinement (Refines, CoordsRefine, RcInvolution, ...) on the closed reachable set for parent lengths "
        "<= 3 (quick) / 4 (thorough) with out-of-range and negative slice arguments, strides to +-3, rc, to_rna/to_dna, copy, and by "
        "simulation walks to length 10. Every emitted transition is replayed on old Sequence, new Sequence and collection-backed "
        "SeqDataView objects (str, len, iteration, parent_coordinates under the calibrated containment rule, annotation offset), and in "
        "every reached state ~100 read-only methods are compared with the same method on a fresh sequence built from str(view)."
        " Further modules: SeqViewRead.tla (what a view answers: counts, k-mers, windows, gap queries, comparison, conversions, translation link to GeneticCode.tla) and SeqViewColl.tla (collections whose members are views of one parent).",
        design_ref="DESIGN.md section 2 / C01",
        note="Trusted: TLC, harness projection. DNA/RNA only (no protein/text); lengths > 4 only by walks; annotation/plotting methods and "
        "to_rich_dict (C10) excluded from the method comparison; no code->spec trace validation for this property.",
        technique="TLA+ refinement model (TLC exhaustive + simulation) + spec->code transition replay on three sequence classes",
    ),
    "C08": dict(
        category="model_checking",
        text="IndelMap.tla defines every IndelMap operation on the gapped string it describes (slice for all intervals, index, concat, "
        "scale, reversal, merge/minus/shared gaps, joined segments, index conversions, feature-map views) and FeatureMap.tla defines "
        "inverse/covered/shadow/reversal/composition/gaps on the position sequence; TLC checks the algebraic laws and InParent on all "
        "strings <= 6 (quick) / 8 (thorough). Every emitted case is executed on real maps built through 6 constructors and the full "
        "description is compared; maps recorded at real call sites (Aligned slicing/rc/concat, feature projection, dotplot) are validated "
        "against IndelMapTrace.tla."
        " Further: every query leaves the receiver unchanged (histories on one derived object); IndelMapUse.tla (CIGAR encode / decode / slice, Aligned = map x view: slice, rc, feature indexing, unknown termini, JSON); per-case CPU / memory guards so that a corrupted shared cache ends in a verdict.",
        design_ref="DESIGN.md section 2 / C08",
        note="Trusted: TLC, harness projection. Slice bounds beyond +-len, with_termini_unknown, FeatureMap absolute/relative position and "
        "zero-length spans not covered.",
        technique="TLA+ string-model of coordinate maps (TLC exhaustive) + spec->code replay + code->spec trace validation",
    ),
    "C19": dict(
        category="model_checking",
        text="AtomicWrite.tla models the file system (dest, temp) and the actual call sequence of atomic_write / save_to_filename / "
        "Table.write with Crash, Fault(call) and FormatterRaises actions; TLC reports the invariant Atomic violated on the transcribed "
        "current protocol (unlink-then-rename window, unlink-on-error) and proves it on the intended protocol. Every file-system call "
        "boundary of real writes (audit-hook injection in child processes; kill and OSError at each boundary; plain/gz/bz2/zip targets; "
        "existing/absent destination; formatter failures) is executed and the observed (dest, leftovers) judged by the spec's verdict "
        "table; each child's call log is validated by Trace_AtomicWrite.tla. AtomicWriteResume.tla models apply_to interruption and "
        "re-run; every prefix / kill point of real runs on a DataStoreDirectory is replayed."
        " Further: a failing close() of the staged file loses the unflushed tail (CloseFails); a .zip destination is a sequence of members (OldNew / Partial rejected; in-place append is a rejected configuration); interruptions that are BaseException but not Exception (KeyboardInterrupt via real SIGINT, SystemExit) at every boundary.",
        design_ref="DESIGN.md section 2 / C19",
        note="Trusted: TLC, sys.addaudithook as the boundary observer (write/close faults injected by a proxy around open_). Power-loss "
        "durability (fsync), partial flush inside one C-level write, two injections per run and parallel apply_to not covered.",
        technique="TLA+ crash/fault model (TLC) + fault enumeration at every real call boundary + trace validation of call logs",
    ),
    "C20": dict(
        category="model_checking",
        text="Table.tla gives the list-of-rows meaning of sorted/filtered/count/distinct/joins/appended/transposed/get_columns/"
        "with_new_column (TLC checks StableSortLaw, JoinLaw, ...); TableText.tla models csv.writer, separator_format and the csv reader "
        "at character level (TLC proves CsvWriterLossless, gives the expected counterexample for separator_format). All emitted tables x "
        "arguments are executed with real Table objects, and typed tables are written (tsv/csv/gz/json/pickle, to_csv/to_tsv) and "
        "reloaded, comparing header, cell text and numeric restoration."
        " Further: TableObject.tla (histories on one table: set/clear index, assign / delete column interleaved with array / to_dict / write+load), operands of appended / joined enumerated over index placements and column orders with rows compared as records, non-finite and extreme numeric cells at every row position, the writer= path.",
        design_ref="DESIGN.md section 2 / C20",
        note="Trusted: TLC, harness instantiation of cells. Tables <= 3 columns x <= 4 rows (plus 16-100 row sort cases); index_name, "
        "titles/legends, display formats, \\r in cells, custom reader/writer callbacks not covered.",
        technique="TLA+ list-of-rows and character-level text models (TLC) + spec->code replay incl. file round trips",
    ),
    "C10": dict(
        category="model_checking",
        text="Serialise.tla states that a round trip (rich dict -> JSON -> deserialise_object, or pickle) is a stuttering step of every "
        "object's state machine; TLC enumerates every behaviour (operation histories up to the depth bound with a round trip inserted "
        "anywhere) for 26 kinds: old/new sequences with annotations and offsets, alignments (both classes), collections (old/new), "
        "trees, tables, distance matrices (incl. made asymmetric by in-place cell edits) and dict arrays, indel and feature maps, Aligned, "
        "annotation dbs, likelihood functions (re-scoped, optimised; several loci; free / gamma rate classes; site-HMM), substitution models, "
        "moltype, alphabets (incl. the same motifs in a non-standard order, and a user-defined model over one), trees with unusual clade / tip names, NotCompleted, model_result, generic_result. Each behaviour is replayed on a "
        "real object and the copy's observable projection is compared, after the round trip and after every later operation, with a "
        "reference object that was never serialised.",
        design_ref="DESIGN.md section 2 / C10",
        note="Trusted: TLC, the projection functions in harness/kinds_C10.py (what 'observationally equal' means per kind). History depth 2 "
        "(quick) / 3 (thorough), one round trip per behaviour. Registered deserialisers not exercised by any kind are listed in the evidence.",
        technique="TLA+ stuttering specification (TLC enumeration of histories) + spec->code replay with reference-object comparison",
    ),
    "C14": dict(
        category="model_checking",
        text="ComposedApp.tla models inputs with per-step outcome classes (ok, raises, None, wrong type, own NotCompleted), a FIFO queue, "
        "at most W running tasks, completion of ANY running task and consumption by the master; TLC checks conservation, exactly-once "
        "accounting, first-failing-step naming, NotCompleted pass-through and termination for all outcome vectors and all completion "
        "orders within the bounds. Serial behaviours are replayed on real composed apps over five writer/store combinations; every "
        "feasible completion order for n<=4, W<=3 is FORCED on the real loky-backed apply_to with gate files; free-running parallel "
        "runs are validated against Trace_ComposedApp.tla."
        " Further: ArgPristine (a function-style step's constructor arguments are as constructed at every call; Isolated=FALSE refuted by TLC), ComposedAppRuns.tla (histories of apply_to runs on one store: logger, resume, nothing duplicated), ComposedAppLinks.tla (composition links, type refusal, disconnect, re-composition), input naming schemes (suffix / prefix / dotted identifiers).",
        design_ref="DESIGN.md section 2 / C14",
        note="Trusted: TLC, gate-file scheduler (orders observed through the output store, never wall clock). MPI executor, progress UI, "
        "write_tabular, > 4 inputs or > 3 workers not covered.",
        technique="TLA+ schedule model (TLC exhaustive) + forced-schedule replay on the real executor + trace validation",
    ),
    "C15": dict(
        category="model_checking",
        text="NJ.tla and UPGMA.tla state neighbour joining (ties nondeterministic) and size-weighted UPGMA in exact integer/rational "
        "arithmetic; TLC proves Recovered (splits and branch lengths of the generator on every tie-break path) for every labelled "
        "binary generator on 3-6 tips with small integer lengths (zero internal lengths give multifurcations), and every additive / "
        "ultrametric matrix is fed to the real nj/gnj/quick_tree/upgma entry points, comparing splits and path lengths. Distance.tla "
        "computes the exact count matrix and p over alignments with gaps/ambiguities (symmetry, zero diagonal, column-order freedom, "
        "duplicate-shortcut soundness checked by TLC); the published JC69/TN93/paralinear/LogDet formulas are applied to TLC's counts in "
        "the harness and compared with every real entry point. Real nj() runs on non-additive matrices are validated join-by-join by "
        "Trace_NJ.tla."
        " Further: DistanceCalls.tla (builders are pure over histories of calls on one DistanceMatrix / DictArray object), exact classification of each estimator's domain (defined | boundary | outside | undefined) from integer log-argument numerators, with boundary-hitting alignment families.",
        design_ref="DESIGN.md section 2 / C15",
        note="Trusted: TLC; evaluation of ln/det in the estimators is float work in the harness on TLC's exact counts. Protein/RNA "
        "moltypes, variances, gnj with keep > 1 beyond 5 tips, and the open cases listed in the evidence (zero frequencies, pseudo-count "
        "substitution) are not covered.",
        technique="TLA+ exact NJ/UPGMA/count models (TLC) + spec->code replay on all entry points + code->spec join trace validation",
    ),
    "C03": dict(
        category="model_checking",
        text="Alignment.tla defines every alignment/collection operation (slices incl. negative/over-the-end, index, rc, take_positions, "
        "take_seqs, omit_gap_pos, no_degenerates, filtered, get_degapped_relative_to, sample with injected indices, +, to_type, "
        "to_rna/to_dna, degap, deepcopy) on the matrix of cells; TLC checks Rectangular, NoCellInvented, RcInvolution and commutation "
        "laws over all small layouts. Histories (paths of the transition graph) are executed in lock-step on real Alignment and "
        "ArrayAlignment objects and names/to_dict/len/get_gapped_seq must equal the spec successor; 20 read-only methods are compared "
        "with a fresh object built from the rows; seeded random executions (DNA/RNA/protein, up to 7 operations, arbitrary arguments) "
        "are validated by Trace_Alignment.tla."
        " ConcatSlices(a,b,c,d) concatenates two slices of the SAME alignment object in any order after any history (rc, slice, to_rna), for both alignment classes.",
        design_ref="DESIGN.md section 2 / C03",
        note="Trusted: TLC, harness instantiation of cell classes with concrete symbols. '?'/'.' gap symbols, annotations, add_seqs, "
        "omit_gap_seqs/runs, new_alignment classes not covered; strided slices on Alignment raise by design (unsupported).",
        technique="TLA+ cell-matrix model (TLC exhaustive) + history replay on both classes + code->spec trace validation",
    ),
    "C09": dict(
        category="model_checking",
        text="TreeOps.tla is a closed state machine over trees (parent map + edge lengths in half units) with newick/JSON/rich-dict round "
        "trips, copy/deepcopy, sorted, rooted_at, rooted_with_tip, root_at_midpoint, unrooted, get_sub_tree over all tip subsets, prune, "
        "bifurcating; TLC checks StepPreserves (tips, unrooted splits, all tip-to-tip path lengths), MidpointCentred, RerootLandsThere. "
        "Every abstract tree (all shapes on <= 4 tips quick / <= 5 thorough + sampled 6) is rebuilt on real PhyloNodes for three name "
        "classes (plain, quoting-needed, newick metacharacters) and results, receiver-unmodified and aliasing are judged. TreeDist.tla "
        "defines RF / matching distances independently (set difference, minimum over bijections); all ordered pairs on 4 (5) tips are "
        "compared. Recorded executions on random 7-12 tip trees are validated by TreeOpsTrace.tla."
        " Further modules: TreeDistHist.tla (distances over histories on one object), Query (distance, lca, connecting edges, edge-name scopes with outgroup), TreeOpsConsensus.tla (majority-rule consensus as a function of split weights), node names as state (NamesUnique, CreatedNameIsFresh) with auto-named and edge-like names, JSON / newick round trips anywhere in a history.",
        design_ref="DESIGN.md section 2 / C09",
        note="Trusted: TLC, harness projection (tips, splits, get_distances). Non-dyadic branch lengths, keep_root=True, file write/load, "
        "names starting and ending with a quote, Lin-Rajan-Moret on unequally resolved trees not covered.",
        technique="TLA+ tree state machine + independent distance definitions (TLC) + spec->code replay + trace validation",
    ),
    "C12": dict(
        category="model_checking",
        text="GeneticCode.tla writes the 27 NCBI translation tables (standard table + per-code differences) and the IUPAC resolve/encode/"
        "complement definitions independently of both copies in the repository; TLC checks RcInvolution, ComplementLaws, "
        "EncodeResolveInverse, SixFrameLaw, StopLaws. All 64 codons x 27 codes, every base string up to length 6 (7) x frames x strands, "
        "a stop-rich family x the stop-option matrix, sequence pairs and all IUPAC symbols/strings are fed to every entry point (old and "
        "new GeneticCode, old/new DNA and RNA Sequence, collections/alignments, app.translate) and must agree with the spec."
        " Further: a long-sequence family (255 / 256 / 257 / 65535 / 65536 codons) emitted by TLC itself; GeneticCodeHistory.tla (HistoryIndependent: answers of translate / complement / what_ambiguity / resolve do not depend on what other moltypes were asked before, replayed in pristine forked processes).",
        design_ref="DESIGN.md section 2 / C12",
        note="Trusted: TLC and the transcription of the published NCBI/IUPAC tables in the spec. best_frame / select_translatable, gapped or "
        "ambiguous codons, protein X, sequences longer than 7 not covered; slow entry points run on a seeded stratified sample of the long strings.",
        technique="TLA+ table/translation model (TLC exhaustive) + spec->code replay on every entry point",
    ),
    "C17": dict(
        category="model_checking",
        text="AnnotDb.tla models the record list with the linear-scan oracle Matches (Within / Within-or-Overlaps), the 1-based closed to "
        "0-based half-open conversion, and transcribes the SQL overlap clauses of _matching_conditions; TLC proves SqlAgrees over the "
        "whole interval lattice plus QueryDistributesOverUnion, SubsetIdempotent. One-record databases over every span list x every "
        "query combination x window kind, and histories closed under subset/union/update/deepcopy/pickle/json/write+open, are executed "
        "on BasicAnnotationDb, GffAnnotationDb (via gff_parser text) and GenbankAnnotationDb; random call sequences are validated by "
        "Trace_AnnotDb.tla."
        " Further modules: AnnotDbProv.tla (provenance of operands: memory | file | copy of a file-bound db; update / union in both directions), AnnotDbLoad.tla (GFF3 text -> records: multi-line features, block boundaries, seqid filters, inert extra attributes), QueryList / CountDistinct / Describe.",
        design_ref="DESIGN.md section 2 / C17",
        note="Trusted: TLC, sqlite. on_alignment, strand=None, parent/child queries, update_record_spans, LIKE wildcards, empty windows with "
        "allow_partial not covered.",
        technique="TLA+ linear-scan oracle + transcribed SQL predicate (TLC) + spec->code replay on three db classes + trace validation",
    ),
    "C04": dict(
        category="model_checking",
        text="Annotation.tla fixes a feature's meaning at creation (Denotes(f): the parent residues it covers, read on its strand) over a "
        "root of length P with annotation offset 0/3 and a plus- and a minus-strand feature with every 1-2 span placement; the view set "
        "is closed under slicing, rc, copy, seq[feature], degap; per state TLC gives the residues each feature displays on the view, its "
        "orientation and the status of every get_features window (with / without partial matches). AnnotationAln.tla does the same for "
        "rows of an alignment, alignment-level features and projection through gapped rows. Every state and transition is rebuilt on old "
        "and new Sequence (features added directly, on offsets, on slices, or through a BasicAnnotationDb) and on old-style Alignment, "
        "and queries, coordinates, strand and feature slices are compared."
        " Further modules: AnnotationHistory.tla (all interleavings of add_feature / slice / rc / copy / degap / to_rna over objects sharing a db), AnnotationNames.tla (sequences, feature names and biotypes that are look-alikes under SQL LIKE / case), feature algebra and masking on every view.",
        design_ref="DESIGN.md section 2 / C04",
        note="Trusted: TLC, harness projection. Strided / negative-argument views, add_feature on rc views, get_children/get_parent, "
        "union/shadow, ArrayAlignment and new-style collections, offsets on alignment rows not covered; no code->spec trace validation.",
        technique="TLA+ denotation model of features over views (TLC exhaustive) + spec->code state/transition replay",
    ),
    "C06": dict(
        category="model_checking",
        text="LineStream.tla transcribes iter_splitlines as a state machine (chunk reads incl. short reads, universal newlines, flush) "
        "and TLC proves the yielded lines equal an independently written SplitLines for every text over {a,b,\\n,\\r} up to length 5 (7) "
        "and every chunk size; SeqFormats.tla models the FASTA/PHYLIP/PAML/GDE writers at line level and transcribes the parser variants, "
        "proving Parse(Write(x)) = Trunc(x) on clean names and characterising where it fails; SeqFormatsGb.tla models GenBank flat files. "
        "All emitted (text, chunk) pairs and name/sequence families are executed on the real iter_splitlines/iter_line_blocks, writers "
        "(plain/gz/bz2), loaders and up to 28 parser variants per format (bytes vs line based, strict/non-strict, streamed with several "
        "chunk sizes), plus JSON round trips and minimal/rich GenBank parsers."
        " Further: SeqFormatsHist.tla (the loader's configuration as state: a load with options must not affect later loads; pristine forked processes), ragged collections around the wrap width incl. the writers' default width, names with interior runs of blanks / tabs.",
        design_ref="DESIGN.md section 2 / C06",
        note="Trusted: TLC, harness instantiation of character classes. clustal/nexus/xmfa/msf (no writer), interleaved PHYLIP, chardet on "
        "non-ASCII input, lower-case residues, all-blank names not covered; zero-length sequences have a listed open outcome.",
        technique="TLA+ transcription of the line streamer and parser variants + writer relations (TLC) + spec->code replay",
    ),
}

PENDING = {}


def main():
    props = [json.loads(l) for l in open(VERIF / "properties.jsonl")]
    checks = []
    for p in props:
        pid = p["id"]
        if pid not in CHECKS:
            continue
        c = CHECKS[pid]
        checks.append(
            {
                "property_id": pid,
                "quick_cmd": f"./check {pid} --tier quick",
                "thorough_cmd": f"./check {pid} --tier thorough",
                "evidence_file": f"/verif/evidence/{pid}.json",
                "replay_cmd_template": f"./check {pid} --replay {{path}}",
                "engine": "tlc+conformance",
                "level_claimed": {"category": c["category"], "text": c["text"], "design_ref": c["design_ref"]},
                "level_note": c["note"],
                "technique": c["technique"],
            }
        )
    na = [
        {"property_id": p["id"], "reason": PENDING.get(p["id"], "check not built yet in this round; design in DESIGN.md section 2, not claimed until its quick command passes on the unchanged tree")}
        for p in props
        if p["id"] not in CHECKS
    ]
    m = {
        "version": 1,
        "setup_cmd": "./setup.sh",
        "hooks": {
            "guard": "COGENT3_VERIF",
            "enable": "no source hooks in /repo: all observation is through the public API and harness-side wrappers installed by /verif/harness when COGENT3_VERIF=1 (set by ./check); cogent3 is an editable install so checks always run /repo's working tree",
            "baseline_off_cmd": "cd /repo && /venv/bin/python -m pytest -ra -q -p no:cacheprovider --timeout=900 --continue-on-collection-errors",
            "source_commits": [],
            "add_only": True,
        },
        "engines": [
            {
                "name": "tlc+conformance",
                "path": "/verif/check",
                "serves_properties": [c["property_id"] for c in checks],
                "kind_free_text": "explicit TLA+ specifications in /verif/specs checked by TLC; spec->code replay of emitted transitions and code->spec trace validation (harness/)",
            }
        ],
        "checks": checks,
        "notes": "See DESIGN.md. known_findings.txt lists genuine defects (known:) and repaired ones (fixed:).",
        "not_applicable": na,
    }
    (VERIF / "MANIFEST.json").write_text(json.dumps(m, indent=1) + "\n")


if __name__ == "__main__":
    main()
