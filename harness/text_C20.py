"""C20, delimited / json / pickle round trips: replay of TableText.tla on the real code."""
from __future__ import annotations

import csv
import gzip
import io
import itertools
import os
import pathlib
import tempfile
import traceback

import numpy

import replay_C20 as rp

text = rp.text

# ------------------------------------------------------------------ design group


def text_models_case(rec):
    """bind the three character-level models to the code they transcribe"""
    rows = [[text(c) for c in r] for r in rec["from"]]
    (sep,) = rec["args"]
    to = rec["to"]
    drift = []
    # csv.writer exactly as Table.write configures it
    buf = io.StringIO()
    csv.writer(buf, delimiter=sep, lineterminator="\n").writerows(rows)
    if buf.getvalue() != text(to["csv_file"]):
        drift.append(("csv.writer", buf.getvalue(), text(to["csv_file"])))
    # csv.reader exactly as load_delimited configures it, on the (possibly malformed) separator_format text
    sep_file = text(to["sep_file"])
    parsed = list(csv.reader(io.StringIO(sep_file), dialect="excel", delimiter=sep))
    if parsed != [[text(c) for c in r] for r in to["sep_parse"]]:
        drift.append(("csv.reader", parsed, to["sep_parse"]))
    # and the reader on the csv.writer text gives the table back (the lossless law, on the real pair)
    back = list(csv.reader(io.StringIO(buf.getvalue()), dialect="excel", delimiter=sep))
    if back != rows:
        drift.append(("csv.reader(csv.writer)", back, rows))
    from cogent3.format.table import separator_format

    real = separator_format(list(rows[0]), [list(r) for r in rows[1:]], sep=sep) + "\n"
    if real != sep_file:
        # the implementation-shaped model no longer describes separator_format.  Only the io group
        # decides whether the property holds; this is reported as drift.
        drift.append(("separator_format", real, sep_file))
    # the property at text level, on cogent3's own reader configuration: the text csv.writer
    # produced for this table, read by parse.table.load_delimited, is the table
    from cogent3.parse.table import load_delimited

    p = _workdir() / f"d{next(_counter)}.txt"
    p.write_text(buf.getvalue())
    try:
        header, body, _, _ = load_delimited(p, header=True, sep=sep)
        loaded = [header] + body
    except Exception as ex:  # the reader may not refuse what the writer wrote
        loaded = f"exception:{type(ex).__name__}"
    finally:
        p.unlink(missing_ok=True)
    if loaded != rows:
        sepname = "comma" if sep == "," else "tab"
        return (
            f"TextModels:load_delimited:{sepname}:{'text' if isinstance(loaded, list) else loaded}",
            "load_delimited(csv.writer(t)) != t",
            {"table": rows, "file": buf.getvalue(), "loaded": loaded},
        )
    if drift:
        return "__drift__", drift[0][0], {"drift": [list(map(repr, d)) for d in drift]}
    return None


# ------------------------------------------------------------------ io group

_counter = itertools.count()
_dir = {}


def _workdir():
    pid = os.getpid()
    if pid not in _dir:
        base = os.environ["VERIF_C20_SCRATCH"]
        _dir.clear()
        _dir[pid] = pathlib.Path(tempfile.mkdtemp(prefix="io-", dir=base))
    return _dir[pid]


def path_class(path):
    if path in ("json", "pickle", "writer"):
        return path
    return "to_string" if path.startswith("to_") else "write"


def write_and_load(table, path, d):
    from cogent3 import load_table

    n = next(_counter)
    if path.startswith("to_"):
        fmt = path[3:]
        p = d / f"t{n}.{fmt}"
        s = table.to_csv() if fmt == "csv" else table.to_tsv()
        p.write_text(s + "\n")  # Table.write adds the final newline to string formats
    elif path == "writer":
        from cogent3.format.table import separator_formatter

        p = d / f"t{n}.tsv"
        table.write(p, writer=separator_formatter(sep="\t"))
    else:
        p = d / f"t{n}.{path}"
        table.write(p)
    try:
        raw = None
        if path not in ("json", "pickle"):
            raw = gzip.open(p, "rt", newline="").read() if path.endswith(".gz") else p.open(newline="").read()
        return load_table(p), raw
    finally:
        try:
            p.unlink()
        except OSError:
            pass


def cell_ok(exp, v, delimited, missing):
    """exp: spec cell <<tag, chars>>; v: real python value"""
    if isinstance(v, numpy.generic):
        v = v.item()
    tag, chars = exp
    if not delimited:
        return rp.norm(v) == rp.norm_cell(exp), "value"
    if tag in ("i", "f"):
        want = int if tag == "i" else float
        if isinstance(v, bool) or not isinstance(v, want):
            return False, "kind"  # numeric column not restored as the number it was
        w = want(text(chars))
        return (v == w or (v != v and w != w)), "text"  # nan is restored as nan
    if tag == "n":
        return (v is None or str(v) in missing), "text"
    return str(v) == text(chars), "text"


def roundtrip_case(rec):
    from cogent3 import make_table

    (path,) = rec["args"]
    tab = rec["from"]
    to = rec["to"]
    header = [text(h) for h in tab["header"]]
    data = [[rp.pyval(c) for c in r] for r in tab["rows"]]
    delimited = path not in ("json", "pickle")
    missing = {text(m) for m in to["missing"]}
    d = _workdir()
    what = None
    detail = {}
    raw = None
    try:
        t = make_table(header=header, data=data)
        if list(t.header) != header:
            raise RuntimeError(f"harness: cannot build the input table {header}")
        got, raw = write_and_load(t, path, d)
        ghdr = list(got.header)
        grows = rp.rows_of(got)
        if ghdr != [text(h) for h in to["header"]]:
            what = "header"
        elif len(grows) != len(to["rows"]) or any(len(r) != len(e) for r, e in zip(grows, to["rows"])):
            what = "shape"
        else:
            for r, e in zip(grows, to["rows"]):
                for v, c in zip(r, e):
                    ok, w = cell_ok(c, v, delimited, missing)
                    if not ok and what is None:
                        what = w
        if what:
            detail = {"expected": {"header": header, "rows": data}, "observed": {"header": ghdr, "rows": repr(grows)}, "file": raw}
    except RuntimeError:
        raise
    except Exception as ex:
        what = f"exception:{type(ex).__name__}"
        detail = {"exception": repr(ex), "traceback": traceback.format_exc()[-1200:]}
    cls = rec["cls"]
    model = rec["model"]
    if what is None:
        if raw is not None and raw != text(model["file"]):
            return "__drift__", "file-text", {"real_file": raw, "model_file": text(model["file"]), "path": path}
        if not model["ok"]:
            return "__drift__", "model-predicts-loss", {"path": path, "table": tab}
        return None
    klass = cls["class"]
    if klass == "empty" and cls["cols"] == "one-column":
        klass = "empty-one-column"
    key = f"RoundTrip:{path_class(path)}:{cls['where']}:{klass}:{cls['rows']}:{what}"
    detail["model_predicts_loss"] = not model["ok"]
    return key, what, detail


def dispatch(rec):
    if rec["act"] == "TextModels":
        return text_models_case(rec)
    return roundtrip_case(rec)


# ------------------------------------------------------------------ entry


def check_text(run, stats, replay, jobs):
    total = 0
    # design level: csv.writer and separator_format (csv.writer based since its repair) are lossless
    recs, res = jobs.get("design")
    n, bad = replay(run, recs, dispatch, "TableText/design")
    stats["text-design"] = {"tlc_states": res.distinct, "tlc_transitions": res.generated, "tlc_wall_s": round(res.wall, 1),
                            "cases": n, "disagreements": bad,
                            "separator_format_lossy_tables": sum(1 for r in recs if not r["to"]["sep_ok"])}
    total += n
    del recs
    # typed tables x output paths on the real code
    recs, res = jobs.get("io")
    n, bad = replay(run, recs, dispatch, "TableText/io")
    by_path = {}
    for r in recs:
        by_path[r["args"][0]] = by_path.get(r["args"][0], 0) + 1
    if len(by_path) != 9:
        raise RuntimeError(f"vacuous: io group did not cover all output paths: {sorted(by_path)}")
    stats["text-io"] = {"tlc_states": res.distinct, "tlc_transitions": res.generated, "tlc_wall_s": round(res.wall, 1),
                        "cases": n, "disagreements": bad, "by_path": by_path,
                        "model_predicts_loss": sum(1 for r in recs if not r["model"]["ok"])}
    total += n
    run.assumptions += [
        "delimited text has no notation for a missing value: a None cell may come back as '' or 'None' (Demanded.missing in TableText.tla)",
        "str cells that read as numbers/bools may come back typed (documented inference); their text must be unchanged",
        "str cells that are a number or True/False/None padded with blanks (' 10', 'True ') are outside the model: the documented inference reads them as the value, like int(' 10')",
        "to_csv()/to_tsv() text is stored with a final newline, as Table.write does for string formats; floats there are exact at digits=4 (exponent-notation values are only sent through Table.write / json / pickle)",
        "numeric cells include nan, inf, -inf (nan is restored as nan), negative numbers, -0.0, an 18 digit int and one exponent-notation float, at every row position; ints beyond 64 bits, complex columns and columns mixing int and float cells are outside the model",
        "path 'writer' = Table.write(path.tsv, writer=separator_formatter(sep='\\t')): a caller supplied line writer does no quoting, so it is only given tables without special cells",
        "csv.writer / csv.reader / separator_format models are bound to the real functions on every design table; a mismatch is MODEL-DRIFT, not a violation",
    ]
    return total
